"""C34: module CLI (argv -> namespace -> API call) <-> the real tsdate.cli.

TLC enumerates option combinations of both sub-commands and emits, per behaviour, the
argv tokens, the expected kind of outcome (usage error / CLI error / API call), the kwargs
that must reach the API and what the API is documented to do with them.  Here every
emitted behaviour is run through `tsdate.cli.tsdate_main(argv)` in-process with a recorder
on the names the CLI module calls (`tsdate.date`, `tsdate.preprocess_ts`, the runner that
receives the parsed namespace, `logging.basicConfig`), and the written file is compared
with the direct Python call using the option values the specification says were given.
"""

import contextlib
import io
import json
import logging
import os
import time

import numpy as np

from . import build, harness

INVS = ["TypeOK", "UsageExact", "Faithful", "NoInvention", "Routing", "RejectsIrrelevant", "Verbosity"]
MISSING = object()
DEST_PARAM = {"epsilon": "eps"}


# --------------------------------------------------------------------------- TLC side
def consts(sub, max_given, emit_upto=0, emit=False, variant="design"):
    return {"Sub": json.dumps(sub), "MaxGiven": max_given, "EmitUpTo": emit_upto,
            "EmitOn": "TRUE" if emit else "FALSE", "Variant": json.dumps(variant)}


def model_check(ctx, name, sub, max_given, workers=8):
    cfg = ctx.write_cfg(name + ".cfg", constants=consts(sub, max_given), invariants=INVS)
    return ctx.tlc("CLI", cfg, workers=workers, required_actions=("Pick", "PickDone", "Parse", "Dispatch"))


def refute_impl(ctx, name):
    """The invariants must have teeth: with the parser as shipped (type=bool, split_disjoint
    dropped) TLC has to find a counterexample to Faithful."""
    cfg = ctx.write_cfg(name + ".cfg", constants=consts("preprocess", 0, variant="impl"), invariants=["Faithful"])
    r = ctx.tlc("CLI", cfg, workers=2, must_hold=False, coverage=False)
    if r.violated != "Faithful":
        raise harness.MachineryError("spec self-test: Variant=impl does not violate Faithful")
    ctx.count("spec_selftest_refuted", 1)
    return r


def generate_checked(ctx, name, sub, max_given, emit_upto, workers=8):
    """J1 and emission in one exhaustive run: all invariants, every action taken, and the
    behaviours with at most emit_upto options given emitted for replay."""
    cfg = ctx.write_cfg(name + ".cfg", constants=consts(sub, max_given, emit_upto, emit=True),
                        invariants=INVS + ["EmitInv"])
    r = ctx.tlc("CLI", cfg, workers=workers, required_actions=("Pick", "PickDone", "Parse", "Dispatch"))
    return _dedupe(r.rec("case"))


def _dedupe(recs):
    seen, out = set(), []
    for c in recs:
        k = (c["sub"], tuple(c["pick"]))
        if k not in seen:
            seen.add(k)
            out.append(c)
    return out


def generate(ctx, name, sub, max_given, emit_upto, simulate=None):
    cfg = ctx.write_cfg(name + ".cfg", constants=consts(sub, max_given, emit_upto, emit=True),
                        invariants=["EmitInv", "Faithful", "UsageExact"])
    if simulate:
        r = ctx.tlc("CLI", cfg, workers=4, coverage=False, simulate={"num": max(1, simulate // 4)}, depth=40)
    else:
        r = ctx.tlc("CLI", cfg, workers=4, coverage=False)
    seen, out = set(), []
    for c in r.rec("case"):
        k = (c["sub"], tuple(c["pick"]))
        if k not in seen:
            seen.add(k)
            out.append(c)
    return out


def parallel(ctx, jobs, also=None):
    """Run independent TLC jobs (callables using ctx.tlc) concurrently, and `also` (e.g. the
    import of tsdate) in the calling thread meanwhile.  TLC itself runs in worker threads;
    the accounting in ctx.tlc is replayed serially afterwards from the stored results."""
    import threading
    from concurrent.futures import ThreadPoolExecutor
    from . import tlc as _t
    real = _t.run_tlc
    store, lock = {}, threading.Lock()

    def key(module, cfg, kw):
        kw = {k: v for k, v in kw.items() if k != "timeout"}     # Ctx.tlc puts a floor under it
        return (module, str(cfg), json.dumps(kw, sort_keys=True, default=str))

    def recording(module, cfg, workdir, **kw):
        with lock:  # run_tlc names its metadir by the millisecond
            time.sleep(0.005)
        r = real(module, cfg, workdir, **kw)
        with lock:
            store[key(module, cfg, kw)] = r
        return r

    def cached(module, cfg, workdir, **kw):
        return store[key(module, cfg, kw)]

    class Quiet:  # first pass: only run TLC, no accounting on ctx
        def __init__(self):
            self.work, self.seed = ctx.work, ctx.seed

        def write_cfg(self, name, **kw):
            return ctx.write_cfg(name, **kw)

        def tlc(self, module, cfg, *, must_hold=True, required_actions=(), **kw):
            kw.setdefault("seed", self.seed % (2 ** 31))
            return recording(module, cfg, self.work, **kw)

        def count(self, *a, **k):
            pass

    errs = []

    def guarded(job):
        try:
            job(Quiet())
        except Exception as ex:  # noqa: BLE001  re-raised by the serial pass
            errs.append(ex)

    with ThreadPoolExecutor(max_workers=len(jobs)) as pool:
        futs = [pool.submit(guarded, j) for j in jobs]
        if also is not None:
            also()
        for f in futs:
            f.result()
    for ex in errs:
        if isinstance(ex, harness.MachineryError):
            raise ex
    harness._tlc.run_tlc = cached
    try:
        return [j(ctx) for j in jobs]
    finally:
        harness._tlc.run_tlc = real


# --------------------------------------------------------------------------- values
def pyval(v):
    """spec value <<type, token>> -> Python value (MISSING for <<"none">>)"""
    t = v[0]
    if t == "none":
        return MISSING
    if t == "float":
        return float(v[1])
    if t == "int":
        return int(v[1])
    if t == "str":
        return str(v[1])
    if t == "bool":
        return v[1] == "True"
    raise harness.MachineryError(f"unknown spec value {v}")


def expected_kwargs(case):
    """the direct Python call 'with the same option values': parameters of absent options
    are left to the API default"""
    kw = {}
    for k, v in (case["kwargs"] or {}).items():
        pv = pyval(v)
        if pv is not MISSING:
            kw[k] = pv
    return kw


def api_defaults():
    """value an absent option may carry when the CLI passes it explicitly: the API's own
    documented default"""
    from tsdate import core
    return {"eps": core.DEFAULT_EPSILON, "min_branch_length": core.DEFAULT_MIN_BRANCH_LENGTH,
            "minimum_gap": 1000000, "erase_flanks": True, "split_disjoint": True, "progress": False,
            "method": "variational_gamma"}


# --------------------------------------------------------------------------- bench
class Bench:
    """Scratch directory with input files, the in-process CLI runner and a cache of direct
    API results keyed by (function, input, kwargs)."""

    def __init__(self, ctx, n_inputs=1):
        import tskit
        self.ctx = ctx
        self.dir = os.path.join(ctx.work, "cli")
        os.makedirs(self.dir, exist_ok=True)
        self.out = os.path.join(self.dir, "out.trees")
        self.garbage = os.path.join(self.dir, "garbage.trees")
        with open(self.garbage, "wb") as f:
            f.write(bytes(ctx.rng.getrandbits(8) for _ in range(257)))
        self.missing = os.path.join(self.dir, "does-not-exist.trees")
        self.inputs = {"date": [], "preprocess": []}
        seed = ctx.seed % 100000
        k = 0
        while len(self.inputs["date"]) < n_inputs:
            k += 1
            ts = build.sim(n=2 + (len(self.inputs["date"]) % 2), L=300, rho=5e-4, mu=2e-3, Ne=100, seed=seed + k)
            if ts.num_trees < 3 or ts.num_mutations < 60:
                continue
            p = os.path.join(self.dir, f"date{len(self.inputs['date'])}.trees")
            ts.dump(p)
            self.inputs["date"].append((p, tskit.load(p)))
        k = 0
        while len(self.inputs["preprocess"]) < n_inputs:
            k += 1
            if k > 400:
                raise harness.MachineryError("cannot build a preprocess input with two site gaps")
            ts = preprocess_input(seed + 1000 + k)
            if ts is None:
                continue
            p = os.path.join(self.dir, f"pre{len(self.inputs['preprocess'])}.trees")
            ts.dump(p)
            self.inputs["preprocess"].append((p, tskit.load(p)))
        self.cache = {}
        self.defaults = api_defaults()
        self.outputs = {"date": set(), "preprocess": set()}

    def in_path(self, case, idx):
        if case["input"] == "garbage":
            return self.garbage
        if case["input"] == "missing":
            return self.missing
        return self.inputs[case["sub"]][idx][0]

    def argv(self, case, idx):
        return [case["sub"]] + [self.in_path(case, idx) if t == "IN" else self.out if t == "OUT" else t
                                for t in case["argv"]]

    # ---- the real CLI, in-process, under the recorder
    def run_cli(self, argv):
        import tsdate
        import tsdate.cli as cli
        if os.path.exists(self.out):
            os.remove(self.out)
        obs = {"calls": [], "ns": None, "loglevel": None, "exit": None, "exc": None, "returned": False}
        orig = {"date": tsdate.date, "pre": tsdate.preprocess_ts, "run_date": cli.run_date,
                "run_pre": cli.run_preprocess, "basic": logging.basicConfig}

        def rec_api(name, fn):
            def wrapper(*a, **kw):
                obs["calls"].append((name, len(a), dict(kw)))
                return fn(*a, **kw)
            return wrapper

        def rec_runner(fn):
            def wrapper(args):
                obs["ns"] = dict(vars(args))
                return fn(args)
            return wrapper

        def basic(**kw):
            obs["loglevel"] = kw.get("level")

        tsdate.date = rec_api("date", orig["date"])
        tsdate.preprocess_ts = rec_api("preprocess_ts", orig["pre"])
        cli.run_date = rec_runner(orig["run_date"])
        cli.run_preprocess = rec_runner(orig["run_pre"])
        logging.basicConfig = basic
        err = io.StringIO()
        try:
            with contextlib.redirect_stderr(err), contextlib.redirect_stdout(io.StringIO()):
                try:
                    cli.tsdate_main(argv)
                    obs["returned"] = True
                except SystemExit as ex:
                    obs["exit"] = ex.code
                except Exception as ex:  # noqa: BLE001
                    obs["exc"] = ex
        finally:
            tsdate.date, tsdate.preprocess_ts = orig["date"], orig["pre"]
            cli.run_date, cli.run_preprocess = orig["run_date"], orig["run_pre"]
            logging.basicConfig = orig["basic"]
        obs["stderr"] = err.getvalue()[-300:]
        obs["out_exists"] = os.path.exists(self.out)
        return obs

    # ---- the direct Python call
    def direct(self, sub, idx, fn, kw):
        import tsdate
        key = (fn, idx, json.dumps(kw, sort_keys=True))
        if key not in self.cache:
            ts = self.inputs[sub][idx][1]
            f = tsdate.date if fn == "date" else tsdate.preprocess_ts
            try:
                with contextlib.redirect_stderr(io.StringIO()):
                    self.cache[key] = ("ok", normalised(f(ts, **kw).dump_tables()))
            except Exception as ex:  # noqa: BLE001
                self.cache[key] = ("exc", type(ex).__name__ + ": " + str(ex)[:100])
            self.ctx.count("direct_api_calls")
        return self.cache[key]


def preprocess_input(seed):
    """flanks without sites, one gap of ~400 and one of ~1200 between sites, recombination:
    erase_flanks, minimum_gap (300 / 1000 / default) and split_disjoint all change the result"""
    ts = build.sim(n=3, L=6000, rho=4e-4, mu=6e-3, Ne=100, seed=seed)
    pos = ts.sites_position
    keep = ((pos >= 500) & (pos < 1500)) | ((pos >= 1900) & (pos < 3000)) | ((pos >= 4200) & (pos < 5500))
    ts = ts.delete_sites(np.flatnonzero(~keep))
    pos = ts.sites_position
    if ts.num_sites < 30 or ts.num_trees < 6:
        return None
    gaps = np.diff(pos)
    if np.sum(gaps >= 300) != 2 or np.sum(gaps >= 1000) != 1:
        return None
    return ts


def normalised(tables):
    """tables with the timing details of provenance removed (timestamps and the `resources`
    block of tsdate's own records)"""
    rows = []
    for p in tables.provenances:
        try:
            d = json.loads(p.record)
            if d.get("software", {}).get("name") == "tsdate":
                d.pop("resources", None)
            rows.append(json.dumps(d, sort_keys=True))
        except json.JSONDecodeError:
            rows.append(p.record)
    tables.provenances.clear()
    for r in rows:
        tables.provenances.add_row(record=r, timestamp="")
    return tables


def table_diff(a, b):
    for name in ("nodes", "edges", "sites", "mutations", "individuals", "populations", "migrations", "provenances"):
        if getattr(a, name) != getattr(b, name):
            extra = ""
            if name == "provenances" and a.provenances.num_rows == b.provenances.num_rows and a.provenances.num_rows:
                extra = f": cli {a.provenances[-1].record[:300]} api {b.provenances[-1].record[:300]}"
            return name + extra
    if a.sequence_length != b.sequence_length or a.time_units != b.time_units:
        return "sequence_length/time_units"
    if a.metadata != b.metadata or a.metadata_schema != b.metadata_schema:
        return "top-level metadata"
    return None


def slug(name):
    return name.replace("_", "-")


# --------------------------------------------------------------------------- the comparison
def check_case(ctx, bench, case, idx=0):
    """Replay one behaviour of module CLI into tsdate_main; report every disagreement."""
    import tskit
    sub = case["sub"]
    argv = bench.argv(case, idx)
    obs = bench.run_cli(argv)
    inst = {"case": case, "input_index": idx}
    shown = " ".join(case["argv"])
    failed = obs["exc"] is not None or (obs["exit"] not in (None, 0))
    usage = obs["exit"] == 2 and not obs["calls"] and obs["ns"] is None
    ctx.evaluations += 1
    bad = False

    def viol(sig, msg):
        nonlocal bad
        bad = True
        ctx.violation(f"C34/{sub}/{sig}", inst, f"`tsdate {sub} {shown}`: {msg}", subcheck=sub)

    def outcome_text():
        if obs["exc"] is not None:
            return f"raised {type(obs['exc']).__name__}: {str(obs['exc'])[:80]}"
        if obs["exit"] is not None:
            return f"exit status {obs['exit']!r:.80}"
        return "returned normally"

    if (failed or not obs["returned"]) and obs["out_exists"]:
        viol("output-written-on-error", f"{outcome_text()} but an output file exists")

    # ---- usage errors
    if case["kind"] == "usage_error":
        if not usage:
            viol("usage-error-expected", f"the parser must refuse this command line (exit status 2); {outcome_text()}")
        return not bad
    if usage:
        if case["may_reject"]:
            ctx.count("boolean_spelling_refused")
            return True
        viol("unexpected-usage-error", f"valid command line refused: {obs['stderr'][-160:]}")
        return False

    # ---- log level (verbosity reaches logging only)
    if obs["loglevel"] is not None and case["loglevel"] and str(obs["loglevel"]) != case["loglevel"]:
        viol("verbosity-wrong-log-level", f"log level {obs['loglevel']} but {case['loglevel']} expected")

    # ---- parsed namespace (diagnosis of where a value is lost)
    parse_bad = {}
    if obs["ns"] is not None:
        for dest, v in case["ns"].items():
            if dest in ("err", "npos", "verbosity") or dest not in obs["ns"]:
                continue
            e, g = pyval(v), obs["ns"][dest]
            if e is MISSING:
                continue
            if isinstance(e, bool) and isinstance(g, bool) and e != g:
                parse_bad[DEST_PARAM.get(dest, dest)] = g
                viol(f"{slug(dest)}-{str(e).lower()}-parsed-{str(g).lower()}",
                     f"option value {e} arrives in the parsed arguments as {dest}={g}")
            elif type(g) is not type(e) or g != e:
                parse_bad[DEST_PARAM.get(dest, dest)] = g
                viol(f"{slug(dest)}-parsed-wrong", f"option value {e!r} parsed as {dest}={g!r}")

    # ---- CLI-level rejections
    if case["kind"] == "cli_error":
        if obs["calls"]:
            viol("invalid-combination-reached-api", f"must be rejected ({case['why']}) but the API was called")
        elif not failed:
            viol("invalid-combination-accepted", f"must be rejected ({case['why']}); {outcome_text()}")
        return not bad

    # ---- the API call and its keyword arguments
    calls = [c for c in obs["calls"] if c[0] == case["fn"]]
    if len(obs["calls"]) != 1 or len(calls) != 1:
        viol("api-not-called-once", f"expected one call of tsdate.{case['fn']}, saw {[c[0] for c in obs['calls']]}; "
             f"{outcome_text()}")
        return False
    got = calls[0][2]
    if calls[0][1] != 1:
        viol("api-positional-arguments", f"{calls[0][1]} positional arguments reach tsdate.{case['fn']}")
    layer1_ok = True
    for prm in sorted(set(case["kwargs"]) | set(got)):
        e = pyval(case["kwargs"][prm]) if prm in case["kwargs"] else MISSING
        g = got.get(prm, MISSING)
        dflt = bench.defaults.get(prm, None)
        if e is MISSING:
            if g is MISSING or g is None or (type(g) is type(dflt) and g == dflt) or \
                    (isinstance(dflt, (int, float)) and not isinstance(dflt, bool) and isinstance(g, (int, float))
                     and not isinstance(g, bool) and g == dflt):
                continue
            layer1_ok = False
            viol(f"{slug(prm)}-invented", f"option not given but {prm}={g!r} reaches tsdate.{case['fn']}")
        elif g is MISSING or g is None:
            if prm in bench.defaults and bench.defaults[prm] == e:
                continue  # the API default is the value given
            layer1_ok = False
            viol(f"{slug(prm)}-not-forwarded", f"{prm}={e!r} was given but "
                 f"{'nothing' if g is MISSING else 'None'} reaches tsdate.{case['fn']}")
        elif type(g) is not type(e) or g != e:
            layer1_ok = False
            if prm in parse_bad and type(parse_bad[prm]) is type(g) and parse_bad[prm] == g:
                continue  # already attributed to the parser
            if isinstance(e, bool) and isinstance(g, bool):
                viol(f"{slug(prm)}-wrong-value/{str(e).lower()}-arrives-{str(g).lower()}",
                     f"{prm}={e} was given but {prm}={g} reaches tsdate.{case['fn']}")
            else:
                viol(f"{slug(prm)}-wrong-value", f"{prm}={e!r} was given but {prm}={g!r} reaches tsdate.{case['fn']}")

    # ---- outcome
    kw = expected_kwargs(case)
    if case["outcome"] == "api_rejects_no_output":
        if not failed:
            viol("invalid-values-accepted", f"the API documents a rejection of {kw}; {outcome_text()}")
        status, val = bench.direct(sub, idx, case["fn"], kw)
        if status == "ok":
            ctx.count("api_did_not_reject_documented_case")
        return not bad
    status, val = bench.direct(sub, idx, case["fn"], kw)
    if status == "exc":
        if not failed:
            viol("api-error-swallowed", f"the direct call raises {val}; the CLI {outcome_text()}")
        ctx.count("valid_cli_api_raises")
        return not bad
    if failed or not obs["returned"]:
        if layer1_ok:
            viol("fails-where-api-succeeds", f"direct call tsdate.{case['fn']}(ts, **{kw}) succeeds; the CLI "
                 f"{outcome_text()}")
        return not bad
    if not obs["out_exists"]:
        viol("no-output", "returned normally without writing the output file")
        return False
    out = normalised(tskit.load(bench.out).dump_tables())
    bench.outputs[sub].add(hash(out.nodes.time.tobytes() + out.edges.left.tobytes() + out.nodes.flags.tobytes()))
    d = table_diff(out, val)
    if d is not None and layer1_ok:
        viol("output-differs", f"output file differs from tsdate.{case['fn']}(ts, **{kw}) in {d}")
    ctx.count("outputs_compared")
    return not bad
