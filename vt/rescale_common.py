"""Shared by C25 / C26 / C37: modules Changepoints, Rescale, RescaleTrace <-> tsdate.rescaling
and ExpectationPropagation.rescale."""

import json
import math
import os
from fractions import Fraction

import numpy as np

# fewer GC threads (the machine is shared; ParallelGC defaults to one thread per core) and a deep
# worker stack (TLC evaluates RECURSIVE operators / FoldSet on the Java stack)
TLC_ENV = {"JAVA_TOOL_OPTIONS": "-XX:ParallelGCThreads=2 -Xss64m"}

SOUND_INVARIANTS = ["FixedMeetsDefinition", "FixedTieFree", "FixedMonotone", "PoissonOptimal", "PrefixOptimal",
                    "DictOK", "ResultIsSegmentation"]


def tla_set(xs):
    return "{" + ",".join(json.dumps(x) if isinstance(x, str) else str(x) for x in xs) + "}"


# ---------------------------------------------------------------------------------------
# C26: module Changepoints
# ---------------------------------------------------------------------------------------

def cp_constants(kinds=("fixed", "poisson"), max_len=3, max_count=3, max_total=4, epochs=(1, 2, 3), ks=(1, 2),
                 mcs=(0, 1), mos=(0, 1), offs=(1, 2), variants=("zero/off",), source="gen", emit=False):
    return {"Kinds": tla_set(kinds), "MaxLen": max_len, "MaxCount": max_count, "MaxTotal": max_total,
            "EpochSet": tla_set(epochs), "KSet": tla_set(ks), "MinCounts": tla_set(mcs), "MinOffsets": tla_set(mos),
            "OffVals": tla_set(offs), "Variants": tla_set(variants), "Source": json.dumps(source),
            "EmitDone": "TRUE" if emit else "FALSE"}


def cp_run(ctx, name, invariants, *, inst_file=None, must_hold=True, workers=8, required=(), **consts):
    cfg = ctx.write_cfg(name + ".cfg", constants=cp_constants(**consts), invariants=invariants)
    env = dict(TLC_ENV)
    if inst_file:
        env["INST_FILE"] = inst_file
    return ctx.tlc("Changepoints", cfg, workers=workers, env=env, must_hold=must_hold, required_actions=required,
                   coverage=must_hold, timeout=1500)


def write_ndjson(path, rows):
    with open(path, "w") as f:
        for r in rows:
            f.write(json.dumps(r) + "\n")
    return path


def group_poisson(recs):
    """TLC emits one record per (instance, variant, final state); group per instance."""
    out = {}
    for r in recs:
        key = (r["id"], tuple(r["counts"]), tuple(r["offs"]), r["K"], r["mc"], r["mo"])
        g = out.setdefault(key, {"id": r["id"], "counts": list(r["counts"]), "offs": list(r["offs"]), "K": r["K"],
                                 "mc": r["mc"], "mo": r["mo"], "nfeas": r["nfeas"],
                                 "opt": sorted(list(map(int, o)) for o in r["opt"]), "models": {}})
        m = g["models"].setdefault(r["variant"], [])
        res = list(map(int, r["model"]))
        if res not in m:
            m.append(res)
    return list(out.values())


def group_fixed(recs):
    out = {}
    for r in recs:
        key = (r["id"], tuple(r["counts"]), r["E"])
        out.setdefault(key, {"id": r["id"], "counts": list(r["counts"]), "E": r["E"],
                             "adm": [sorted(set(map(int, a))) for a in r["adm"]]})
    return list(out.values())


def run_fixed(inst):
    from tsdate import rescaling
    return [int(x) for x in rescaling._fixed_changepoints(np.array(inst["counts"], dtype=np.float64), int(inst["E"]))]


def run_poisson(inst):
    from tsdate import rescaling
    r = rescaling._poisson_changepoints(np.array(inst["counts"], dtype=np.float64),
                                        np.array(inst["offs"], dtype=np.float64), 2.0 * math.log(inst["K"]),
                                        float(inst["mc"]), float(inst["mo"]))
    return [int(x) for x in r]


def check_fixed(ctx, pid, inst):
    """the real _fixed_changepoints against the admissible sets TLC computed"""
    ctx.evaluations += 1
    try:
        got = run_fixed(inst)
    except Exception as ex:  # noqa: BLE001
        ctx.violation(f"{pid}/fixed/{type(ex).__name__}", {"kind": "fixed", "inst": inst},
                      f"_fixed_changepoints raised {type(ex).__name__}: {ex}", subcheck="fixed")
        return
    adm = inst["adm"]
    ok = len(got) == len(adm) and all(g in a for g, a in zip(got, adm)) \
        and all(x <= y for x, y in zip(got, got[1:]))
    if not ok:
        ctx.violation(f"{pid}/fixed/boundary-not-last-index-within-fraction", {"kind": "fixed", "inst": inst},
                      f"_fixed_changepoints({inst['counts']}, {inst['E']}) = {got}; admissible per boundary {adm}",
                      subcheck="fixed")
    if inst["E"] >= 2 and len(inst["counts"]) >= 2:
        ctx.nontriv(("fixed", tuple(inst["counts"]), inst["E"]))
    if any(len(a) > 1 for a in adm):
        ctx.count("fixed_instances_with_exact_tie")
    ctx.sample({"kind": "fixed", "counts": inst["counts"], "epochs": inst["E"], "admissible": adm, "code": got}, limit=3)


def check_poisson(ctx, pid, inst):
    """the real _poisson_changepoints against the optimal set TLC computed; a suboptimal result is
    classified with the model variants TLC explored on the same instance:
      nan/impl  = the dynamic programme as compiled (0*log 0 = NaN, pruning as written)
      zero/impl = zero-count deviance 0, pruning as written."""
    ctx.evaluations += 1
    try:
        got = run_poisson(inst)
    except Exception as ex:  # noqa: BLE001
        ctx.violation(f"{pid}/poisson/{type(ex).__name__}", {"kind": "poisson", "inst": inst},
                      f"_poisson_changepoints raised {type(ex).__name__}: {ex}", subcheck="poisson")
        return
    if inst["nfeas"] >= 2:
        ctx.nontriv(("pois", tuple(inst["counts"]), tuple(inst["offs"]), inst["K"], inst["mc"], inst["mo"]))
    ctx.sample({"kind": "poisson", "counts": inst["counts"], "offset": inst["offs"], "penalty": f"2 ln {inst['K']}",
                "min_counts": inst["mc"], "min_offset": inst["mo"], "optimal": inst["opt"], "code": got}, limit=3)
    if got in inst["opt"]:
        return
    as_impl = inst["models"].get("nan/impl", [])
    prune_only = inst["models"].get("zero/impl", [])
    constrained = inst["mc"] > 0 or inst["mo"] > 0
    has_zero = any(c == 0 for c in inst["counts"])
    if got in as_impl and constrained and any(m not in inst["opt"] for m in prune_only):
        sig = f"{pid}/poisson/pruning-with-min-constraints"
    elif got in as_impl and has_zero:
        sig = f"{pid}/poisson/zero-count-segment"
    else:
        sig = f"{pid}/poisson/not-optimal"
    ctx.violation(sig, {"kind": "poisson", "inst": inst},
                  f"_poisson_changepoints(counts={inst['counts']}, offset={inst['offs']}, penalty=2ln{inst['K']}, "
                  f"min_counts={inst['mc']}, min_offset={inst['mo']}) = {got}; optimal segmentations {inst['opt']}",
                  subcheck="poisson")


def random_cp_instances(rng, k_fixed, k_pois):
    rows = []
    for i in range(k_fixed):
        n = rng.randint(2, 10)
        counts = [rng.choice([0, 0, 1, 2, 3, 5, 8, 13, 20]) for _ in range(n)]
        if sum(counts) == 0:
            counts[rng.randrange(n)] = 1
        rows.append({"kind": "fixed", "id": i + 1, "counts": counts, "offs": [], "E": rng.randint(1, 8), "K": 1,
                     "mc": 0, "mo": 0, "variant": "-"})
    for i in range(k_pois):
        n = rng.randint(2, 7)
        total = rng.randint(1, 14)
        counts = [0] * n
        for _ in range(total):
            counts[rng.randrange(n)] += 1
        if rng.random() < 0.5:  # all-positive vectors: the regime in which the code is expected to be right
            counts = [max(c, 1) for c in counts]
        mo = rng.choice([0, 0, 0, 1, 2, 3])
        mc = rng.choice([0, 0, 0, 1, 2, 3])
        offs = [rng.randint(1, 4) for _ in range(n)]
        if sum(counts) < mc or sum(offs) < mo or sum(counts) > 16:
            continue
        base = {"kind": "poisson", "id": 1000 + i, "counts": counts, "offs": offs, "E": 0,
                "K": rng.choice([1, 2, 3, 5]), "mc": mc, "mo": mo}
        for v in ("nan/impl", "zero/impl"):
            rows.append(dict(base, variant=v))
    return rows


# ---------------------------------------------------------------------------------------
# rationals emitted by TLC
# ---------------------------------------------------------------------------------------

def frac(q):
    return Fraction(int(q[0]), int(q[1]))


def dyadic(fr):
    d = fr.denominator
    return d & (d - 1) == 0


def same(x, fr, rtol=1e-12, atol=1e-13):
    """float x against an exact rational: bitwise when the rational is a float, else close12"""
    x = float(x)
    if not math.isfinite(x):
        return False
    if dyadic(fr) and float(fr) == x:
        return True
    return abs(x - float(fr)) <= atol + rtol * abs(float(fr))


def work_file(ctx, name):
    return os.path.join(ctx.work, name)


# ---------------------------------------------------------------------------------------
# C25 / C37: module Rescale  (spec -> code)
# ---------------------------------------------------------------------------------------

RS_INVARIANTS = ["AreaMatchesDirect", "EpochsOK", "TotalsConserved", "BreaksOK", "MapMonotone", "MapFixesZero",
                 "MapContinuous", "FixedUntouched", "OrderPreserved", "SingleIntervalTotal"]
RS_ACTIONS = ("IndexNodes", "EdgeDelta", "CumSum", "Changepoints", "Timescale", "MapPoints")


def rs_constants(max_n=3, max_t=2, max_edges=2, max_m=1, spans=(1, 2), js=(1, 2), fixed_modes=("zeros", "last"),
                 source="gen", emit=False):
    return {"MaxN": max_n, "MaxT": max_t, "MaxEdges": max_edges, "MaxM": max_m, "SpanVals": tla_set(spans),
            "JSet": tla_set(js), "FixedModes": tla_set(fixed_modes), "Source": json.dumps(source),
            "EmitDone": "TRUE" if emit else "FALSE"}


def rs_run(ctx, name, invariants, *, inst_file=None, simulate=None, depth=None, workers=8, required=RS_ACTIONS,
           **consts):
    cfg = ctx.write_cfg(name + ".cfg", constants=rs_constants(**consts), invariants=invariants)
    env = dict(TLC_ENV)
    if inst_file:
        env["INST_FILE"] = inst_file
    kw = {}
    if simulate:
        kw = {"simulate": {"num": simulate}, "depth": depth or 40, "coverage": False}
        required = ()
    return ctx.tlc("Rescale", cfg, workers=workers, env=env, required_actions=required, timeout=1500, **kw)


def group_rescale(recs):
    """one record per (instance, tie resolution of the changepoints); group per instance"""
    out = {}
    for r in recs:
        key = json.dumps([r["id"], r["time"], sorted(r["fixed"]), r["edges"], r["J"], r["mu"]])
        g = out.setdefault(key, {"id": r["id"], "time": r["time"], "fixed": sorted(r["fixed"]), "edges": r["edges"],
                                 "J": r["J"], "mu": r["mu"], "counts": r["counts"], "offset": r["offset"],
                                 "duration": r["duration"], "index": r["index"], "alts": []})
        alt = {"outcome": r["outcome"], "cps": r["cps"], "orig": r["orig"], "resc": r["resc"], "newt": r["newt"]}
        if alt not in g["alts"]:
            g["alts"].append(alt)
    return list(out.values())


def kernel_arrays(g):
    t = np.array(g["time"], dtype=np.float64)
    mu = frac(g["mu"])
    lik = np.array([[float(e[2]), float(e[3] * mu)] for e in g["edges"]], dtype=np.float64).reshape(-1, 2)
    ep = np.array([e[0] - 1 for e in g["edges"]], dtype=np.int32)
    ec = np.array([e[1] - 1 for e in g["edges"]], dtype=np.int32)
    fixed = np.zeros(len(t), dtype=bool)
    fixed[[u - 1 for u in g["fixed"]]] = True
    return t, lik, fixed, ep, ec


def _vec_same(xs, qs):
    return len(xs) == len(qs) and all(same(x, frac(q)) for x, q in zip(xs, qs))


def check_kernels(ctx, pid, g):
    """mutational_area, mutational_timescale, piecewise_scale_point_estimate on one Rescale instance,
    against the values TLC computed (exact when the rational is a float, else rel 1e-12)."""
    from tsdate import rescaling
    t, lik, fixed, ep, ec = kernel_arrays(g)
    mu = frac(g["mu"])
    body = {"kind": "kernels", "inst": g}
    ctx.evaluations += 1
    # --- mutational_area
    try:
        counts, offset, duration, index = rescaling.mutational_area(t, lik, ep, ec)
    except Exception as ex:  # noqa: BLE001
        ctx.violation(f"{pid}/mutational_area/{type(ex).__name__}", body, f"mutational_area raised {ex!r}", "area")
        return
    exp_off = [[o * mu.numerator, mu.denominator] for o in g["offset"]]
    if not (_vec_same(counts, g["counts"]) and _vec_same(offset, exp_off)
            and _vec_same(duration, [[d, 1] for d in g["duration"]]) and [int(i) for i in index] == list(g["index"])):
        ctx.violation(f"{pid}/mutational_area/differs-from-direct-overlap", body,
                      f"mutational_area: counts={counts.tolist()} offset={offset.tolist()} duration={duration.tolist()} "
                      f"index={index.tolist()}; specification counts={g['counts']} offset={exp_off} "
                      f"duration={g['duration']} index={g['index']}", "area")
        return
    # --- mutational_timescale
    alts = g["alts"]
    try:
        origin, adjust = rescaling.mutational_timescale(t, lik, fixed, ep, ec, int(g["J"]))
        raised = None
    except AssertionError as ex:
        raised = ex
    except Exception as ex:  # noqa: BLE001
        ctx.violation(f"{pid}/mutational_timescale/{type(ex).__name__}", body, f"mutational_timescale raised {ex!r}",
                      "timescale")
        return
    if raised is not None:
        if not any(a["outcome"] == "assert_zero_span" for a in alts):
            ctx.violation(f"{pid}/mutational_timescale/unexpected-AssertionError", body,
                          f"mutational_timescale raised AssertionError({raised}); the specification has the interval "
                          f"spans positive: {alts}", "timescale")
        return
    match = [a for a in alts if a["outcome"] != "assert_zero_span"
             and _vec_same(origin, [[o, 1] for o in a["orig"]]) and _vec_same(adjust, a["resc"])]
    if not match:
        ctx.violation(f"{pid}/mutational_timescale/breakpoints-differ", body,
                      f"mutational_timescale: origin={origin.tolist()} adjust={adjust.tolist()}; specification allows "
                      f"{[(a['orig'], a['resc']) for a in alts]}", "timescale")
        return
    alt = match[0]
    # --- piecewise_scale_point_estimate
    try:
        newt = rescaling.piecewise_scale_point_estimate(t, fixed, origin, adjust)
        raised = None
    except AssertionError as ex:
        raised = ex
    except Exception as ex:  # noqa: BLE001
        ctx.violation(f"{pid}/piecewise_scale_point_estimate/{type(ex).__name__}", body, f"raised {ex!r}", "map")
        return
    if (raised is not None) != (alt["outcome"] == "assert_fewer_intervals"):
        ctx.violation(f"{pid}/piecewise_scale_point_estimate/assertion-mismatch", body,
                      f"raised={raised!r} but the specification's outcome is {alt['outcome']}", "map")
        return
    if raised is None and not _vec_same(newt, alt["newt"]):
        ctx.violation(f"{pid}/piecewise_scale_point_estimate/mapped-times-differ", body,
                      f"piecewise_scale_point_estimate: {newt.tolist()}; specification {alt['newt']} "
                      f"(breaks {alt['orig']} -> {alt['resc']})", "map")
        return
    if alt["outcome"] == "ok" and len(g["duration"]) >= 2 and any(e[2] > 0 for e in g["edges"]):
        ctx.nontriv(json.dumps([g["time"], g["fixed"], g["edges"], g["J"], g["mu"]]))
    if len(alts) > 1:
        ctx.count("instances_with_changepoint_tie")
    ctx.sample({"kind": "Rescale behaviour replayed into the kernels", "time": g["time"], "edges": g["edges"],
                "J": g["J"], "counts": g["counts"], "offset": g["offset"], "breaks": [alt["orig"], alt["resc"]],
                "new_times": alt["newt"], "outcome": alt["outcome"]}, limit=3)


def random_rescale_instances(rng, k, max_n=7, max_t=8):
    """larger seeded DAG instances for Rescale (Source = "file"); lengths restricted to powers of two in
    half of them so that every expected value is a float"""
    rows = []
    for i in range(k):
        n = rng.randint(3, max_n)
        dy = rng.random() < 0.5
        pool = [0, 1, 2, 4, 8] if dy else list(range(max_t + 1))
        time = [0] + [rng.choice(pool) for _ in range(n - 1)]
        pairs = [(p, c) for p in range(1, n + 1) for c in range(1, n + 1) if p != c]
        rng.shuffle(pairs)
        edges = sorted(pairs[:rng.randint(1, min(8, len(pairs)))])
        edges = [[p, c, rng.choice([0, 0, 1, 2, 3, 5]), rng.choice([1, 1, 2, 3, 4])] for p, c in edges]
        if not any(time[p - 1] > time[c - 1] for p, c, _, _ in edges):
            continue
        if dy and any(time[p - 1] - time[c - 1] not in (1, 2, 4, 8) for p, c, _, _ in edges
                      if time[p - 1] > time[c - 1]):
            pass  # mixed instance: compared within rel 1e-12
        fixed = [u + 1 for u in range(n) if time[u] == 0] if rng.random() < 0.7 else [n]
        rows.append({"id": i + 1, "time": time, "fixed": fixed, "edges": edges, "J": rng.randint(1, 5), "mu": [1, 1]})
    return rows


# ---------------------------------------------------------------------------------------
# code -> spec: RescaleTrace events
# ---------------------------------------------------------------------------------------

def dense_ranks(values, rtol=0.0):
    """1-based dense ranks of a flat float array; with rtol > 0 consecutive sorted values closer than
    rtol (relative) share a rank (A4)"""
    v = np.asarray(values, dtype=np.float64)
    order = np.argsort(v, kind="stable")
    ranks = np.empty(len(v), dtype=np.int64)
    r = 0
    prev = None
    for i in order:
        x = v[i]
        if prev is None or not (x == prev or abs(x - prev) <= rtol * max(abs(x), abs(prev))):
            r += 1
        prev = x
        ranks[i] = r
    return ranks


def piecewise_map(ob, rb, x):
    """the map defined by the breakpoints, written independently of the repository"""
    ob = np.asarray(ob, dtype=np.float64)
    rb = np.asarray(rb, dtype=np.float64)
    x = np.asarray(x, dtype=np.float64)
    i = np.searchsorted(ob, x, side="right") - 1
    out = np.empty_like(x)
    for k in range(len(x)):
        j = i[k]
        if j >= len(ob) - 1:
            out[k] = rb[-1]
        else:
            out[k] = rb[j] + (rb[j + 1] - rb[j]) / (ob[j + 1] - ob[j]) * (x[k] - ob[j])
    return out


def close(a, b, rtol):
    return bool(abs(a - b) <= rtol * max(abs(a), abs(b)) or a == b)


class RescaleObserver:
    """Patches (harness side only) ExpectationPropagation.rescale and the module-level name
    piecewise_scale_posterior it calls, to snapshot node posteriors before/after and the breakpoints
    of the map actually applied."""

    def __init__(self):
        self.calls = []

    def __enter__(self):
        import tsdate.variational as V
        self.V = V
        self.orig_method = V.ExpectationPropagation.rescale
        self.orig_psp = V.piecewise_scale_posterior
        obs = self

        def psp(post, fixed, ob, rb, qw, max_shape):
            cur = obs.calls[-1] if obs.calls else None
            if cur is not None and cur["ob"] is None:
                cur["ob"], cur["rb"], cur["max_shape"] = np.array(ob), np.array(rb), float(max_shape)
            return obs.orig_psp(post, fixed, ob, rb, qw, max_shape)

        def rescale(ep, **kw):
            fixed = ep.node_constraints[:, 0] == ep.node_constraints[:, 1]
            rec = {"fixed": np.array(fixed), "before": np.array(ep.node_posteriors()), "ob": None, "rb": None,
                   "kw": {k: v for k, v in kw.items() if k != "progress"}, "done": False}
            obs.calls.append(rec)
            ret = obs.orig_method(ep, **kw)
            rec["after"] = np.array(ep.node_posteriors())
            rec["post"] = np.array(ep.node_posterior)
            rec["done"] = True
            return ret

        V.piecewise_scale_posterior = psp
        V.ExpectationPropagation.rescale = rescale
        return self

    def __exit__(self, *a):
        self.V.piecewise_scale_posterior = self.orig_psp
        self.V.ExpectationPropagation.rescale = self.orig_method


def ep_event(tid, rec):
    from tsdate import rescaling
    fixed = rec["fixed"]
    n = len(fixed)
    free = ~fixed
    b_mn, a_mn = rec["before"]["mean"], rec["after"]["mean"]
    ob, rb = rec["ob"], rec["rb"]
    if not (np.all(np.isfinite(b_mn)) and np.all(np.isfinite(a_mn))):
        return None
    # means: one rank space; rescaled values clustered within rel 1e-12
    rk = dense_ranks(np.concatenate([b_mn, a_mn]), rtol=0.0)
    rk_after = dense_ranks(a_mn, rtol=1e-12)
    before = rk[:n]
    after_same_space = rk[n:]
    mapped = piecewise_map(ob, rb, b_mn)
    shape = rec["post"][:, 0] + 1.0
    # probes through the real point-estimate kernel
    pts = []
    for k in range(len(ob)):
        if k > 0:
            pts += [0.5 * (ob[k - 1] + ob[k]), np.nextafter(ob[k], -np.inf)]
        pts += [ob[k], np.nextafter(ob[k], np.inf)]
    pts.append(ob[-1] * 1.5 + 1.0)
    pts = np.array(sorted(set(float(p) for p in pts if p >= 0)))
    try:
        img = rescaling.piecewise_scale_point_estimate(pts, np.zeros(len(pts), dtype=bool), np.ascontiguousarray(ob),
                                                        np.ascontiguousarray(rb))
        probe = dense_ranks(img, rtol=1e-12).tolist()
        cont = []
        for k in range(1, len(ob)):
            lo, at, hi = (img[np.searchsorted(pts, x)] for x in (np.nextafter(ob[k], -np.inf), ob[k],
                                                                  np.nextafter(ob[k], np.inf)))
            cont.append(close(lo, at, 1e-9) and close(at, hi, 1e-9) and close(at, rb[k], 1e-9))
    except AssertionError:
        probe, cont = [2, 1], [False]
    ev = {"kind": "ep", "tid": tid, "n": int(n), "fixed": [bool(x) for x in fixed],
          "before": [int(x) for x in before],
          # fixed nodes: same rank space as `before` (must be identical); free nodes: clustered ranks
          "after": [int(after_same_space[u]) if fixed[u] else int(rk_after[u]) for u in range(n)],
          "var0": [bool(rec["after"]["variance"][u] == 0.0) for u in range(n)],
          "shape_ok": [bool(fixed[u] or shape[u] <= rec["max_shape"]) for u in range(n)],
          "mean_ok": [bool(fixed[u] or close(a_mn[u], mapped[u], 1e-9)) for u in range(n)],
          "ob": dense_ranks(ob).tolist(), "rb": dense_ranks(rb).tolist(),
          "ob0": bool(ob[0] == 0.0), "rb0": bool(rb[0] == 0.0), "probe": probe, "cont_ok": cont}
    return ev


def ep_corpus(ctx):
    from . import inputs
    q = ctx.quick
    return inputs.contemporaneous(ctx.seed, k=3 if q else 10) + inputs.polytomies(ctx.seed, k=1 if q else 3) \
        + inputs.historical(ctx.seed, k=1 if q else 3) + inputs.diploid(ctx.seed, k=1 if q else 3)


def ep_settings(ctx):
    s = [dict(rescaling_intervals=1), dict(rescaling_intervals=3, rescaling_iterations=2),
         dict(rescaling_intervals=2, match_segregating_sites=True), dict(),
         dict(rescaling_intervals=5, rescaling_iterations=1, max_shape=20)]
    if not ctx.quick:
        s += [dict(rescaling_intervals=1, rescaling_iterations=10, match_segregating_sites=True),
              dict(rescaling_intervals=10, rescaling_iterations=3), dict(rescaling_intervals=4, max_shape=5),
              dict(rescaling_intervals=2, singletons_phased=False), dict(rescaling_intervals=100, max_iterations=3)]
    return s


def ep_events(ctx, pid, corpus, settings):
    import tsdate
    events, meta = [], {}
    for inp in corpus:
        for kw in settings:
            tid = f"{inp.name}/{sorted(kw.items())}"
            ctx.evaluations += 1
            with RescaleObserver() as obs:
                try:
                    tsdate.date(inp.ts, mutation_rate=inp.mu, method="variational_gamma", **kw)
                    exc = None
                except Exception as ex:  # noqa: BLE001
                    exc = ex
            done = [c for c in obs.calls if c["done"] and c["ob"] is not None]
            if exc is not None or not done:
                ctx.count("date_calls_rejected_or_failed")
                meta[tid] = {"input": inp.name, "kw": kw, "exc": repr(exc)}
                continue
            for j, rec in enumerate(done):
                ev = ep_event(f"{tid}#{j}", rec)
                if ev is None:
                    ctx.violation(f"{pid}/rescale/non-finite-posterior-mean", {"tid": tid},
                                  "non-finite posterior mean before or after rescale()", subcheck="rescale")
                    continue
                events.append(ev)
                meta[ev["tid"]] = {"input": inp.name, "kw": kw, "breaks": [rec["ob"].tolist(), rec["rb"].tolist()]}
                moved = np.any(rec["before"]["mean"][~rec["fixed"]] != rec["after"]["mean"][~rec["fixed"]])
                if moved:
                    ctx.nontriv(ev["tid"])
                ctx.sample({"kind": "rescale() call", "tid": ev["tid"], "nodes": ev["n"],
                            "breakpoints": len(rec["ob"]),
                            "capped_shapes": int(np.sum(rec["post"][~rec["fixed"], 0] + 1 >= rec["max_shape"]))},
                           limit=8)
    return events, meta


def validate_traces(ctx, events, checks):
    from .harness import MachineryError
    if not events:
        return []
    path = write_ndjson(work_file(ctx, f"rtrace-{len(events)}-{ctx.traces}.ndjson"), events)
    cfg = ctx.write_cfg(f"RescaleTrace-{ctx.traces}.cfg", spec="TraceSpec", constants={"Checks": tla_set(checks)})
    env = dict(TLC_ENV, TRACE_FILE=path)
    r = ctx.tlc("RescaleTrace", cfg, workers=1, coverage=False, env=env, must_hold=False)
    acc, rej = r.rec("accepted"), r.rec("reject")
    if not acc:
        raise MachineryError("RescaleTrace did not report acceptance:\n" + r.stdout[-3000:])
    if acc[-1]["accepted"] + len({x["tid"] for x in rej}) != len(events):
        raise MachineryError(f"RescaleTrace accounted for {acc[-1]['accepted']}+{len(rej)} of {len(events)} traces")
    ctx.traces += len(events)
    return rej


def judge(ctx, pid, checks, events, meta, label):
    for r in validate_traces(ctx, events, checks):
        ev = next(e for e in events if e["tid"] == r["tid"])
        ctx.violation(f"{pid}/{label}/{r['clause']}", {"event": ev, "meta": meta.get(r["tid"]), "checks": checks},
                      f"trace {r['tid']} rejected by RescaleTrace at clause {r['clause']}", subcheck=label)


# ---------------------------------------------------------------------------------------
# C37: rescale_tree_sequence
# ---------------------------------------------------------------------------------------

def is_simplified(ts):
    """premise of C37: simplifying changes nothing (no unreferenced / unary-only nodes, one root per tree)"""
    s = ts.simplify()
    return (s.num_nodes == ts.num_nodes and s.num_edges == ts.num_edges and s.num_mutations == ts.num_mutations
            and np.array_equal(s.edges_parent, ts.edges_parent) and np.array_equal(s.edges_child, ts.edges_child)
            and np.array_equal(s.edges_left, ts.edges_left) and np.array_equal(s.edges_right, ts.edges_right))


def rescale_rows_from_sweep(inst, ts, row_id, J, mu):
    """a Sweep behaviour (TSGen forest + the per-edge tallies TLC computed) as a Rescale instance: the
    tallies are exactly what rescale_tree_sequence feeds to mutational_timescale"""
    edges = [[e[2] + 1, e[3] + 1, int(m), int(s)] for e, m, s in zip(inst["edges"], inst["emuts"], inst["espan"])]
    return {"id": row_id, "time": [int(t) for t in inst["time"]], "fixed": [u + 1 for u in range(inst["NS"])],
            "edges": edges, "J": J, "mu": list(mu)}


def call_rescale_ts(ts, mu, **kw):
    from tsdate import rescaling
    try:
        return rescaling.rescale_tree_sequence(ts, mu, **kw), None
    except Exception as ex:  # noqa: BLE001
        return None, ex


def ts_event(tid, ts_in, ts_out):
    """one RescaleTrace "ts" event, or a message when the node tables are not even comparable"""
    n = ts_in.num_nodes
    if ts_out.num_nodes != n:
        return None, f"node table has {ts_out.num_nodes} rows, input had {n}"
    try:
        ts_out.tables.tree_sequence()
        valid = True
    except Exception:  # noqa: BLE001
        valid = False
    coords = np.unique(np.concatenate([ts_in.edges_left, ts_in.edges_right, ts_out.edges_left, ts_out.edges_right,
                                       ts_in.sites_position, ts_out.sites_position]))
    ix = lambda a: (np.searchsorted(coords, a) + 1).tolist()  # noqa: E731

    def edge_rows(ts):
        return [list(r) for r in zip(ix(ts.edges_left), ix(ts.edges_right), (ts.edges_parent + 1).tolist(),
                                     (ts.edges_child + 1).tolist())]

    def mut_rows(ts):
        return sorted([int(s) + 1, int(u) + 1] for s, u in zip(ts.mutations_site, ts.mutations_node))

    tout = ts_out.nodes_time
    mt = ts_out.mutations_time
    node = ts_out.mutations_node
    pos = ts_out.sites_position[ts_out.mutations_site]
    mid = np.empty(ts_out.num_mutations)
    root = np.zeros(ts_out.num_mutations, dtype=bool)
    if ts_out.num_mutations:
        tree = ts_out.first()
        for m in range(ts_out.num_mutations):
            tree.seek(pos[m])
            p = tree.parent(node[m])
            if p == -1:
                root[m] = True
                mid[m] = tout[node[m]]
            else:
                mid[m] = (tout[p] + tout[node[m]]) / 2
    vals = np.concatenate([ts_in.nodes_time, tout, mt, mid])
    if not np.all(np.isfinite(vals)):
        return None, "non-finite node or mutation time"
    uniq = np.unique(vals)
    rk = lambda a: (np.searchsorted(uniq, a) + 1).tolist()  # noqa: E731
    sample = np.zeros(n, dtype=bool)
    sample[ts_in.samples()] = True
    ev = {"kind": "ts", "tid": tid, "n": int(n), "valid": valid, "sample": [bool(x) for x in sample],
          "tin": rk(ts_in.nodes_time), "tout": rk(tout), "ein": edge_rows(ts_in), "eout": edge_rows(ts_out),
          "sin": ix(ts_in.sites_position), "sout": ix(ts_out.sites_position), "mnin": mut_rows(ts_in),
          "mnout": mut_rows(ts_out), "mt": rk(mt), "mid": rk(mid), "mnode": rk(tout[node]) if len(node) else [],
          "mroot": [bool(x) for x in root]}
    return ev, None
