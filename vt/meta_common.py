"""Shared machinery for the relational properties C06 / C07 / C08 / C09.

TLA+ side: spec/Relational.tla (Units / Irr / Hist machines: J1 + J2), spec/RelationalTrace.tla
(J3: one trace line per metamorphic pair of real calls), spec/LikPool.tla + LikPoolTrace.tla (C09).

Python here only builds inputs, transforms them, runs the real code, evaluates the *named*
tolerance predicates of DESIGN Appendix C (A4) and interns byte strings (A3).  Which relation
is demanded of which pair is decided by TLC (RelationalTrace, using the operators of
Relational); exponents, verdicts per perturbation subset, call histories and pool schedules
are emitted by TLC and replayed.
"""

import hashlib
import json
import os
import subprocess
import sys
import time

import numpy as np
import tskit

from . import harness, inputs
from .harness import MachineryError

METHODS = ("variational_gamma", "inside_outside", "maximization")
DISCRETE = ("inside_outside", "maximization")
OUTPUTS = ("node_time", "mutation_time", "node_mn", "node_vr", "mut_mn", "mut_vr", "mutation_node")
IDCOMPS = ("node_time", "mutation_time", "node_metadata", "mutation_metadata", "mutation_node")
MENU = ("node_metadata", "site_metadata", "mutation_metadata", "individual_metadata", "population_metadata",
        "ancestral_states", "derived_states", "populations", "monomorphic_sites", "provenance", "individuals")
CONTROLS = ("move_mutation", "sample_time")

# Appendix C (A4)
# (rtol, rtol for variances).  "cl" is the loose class for non-dyadic unit changes: DESIGN planned
# close6 (variances 2e-6), but the variational method's Newton solves stop at sqrt(machine eps) and on the
# unchanged tree historical inputs with few EP iterations show up to 6.2e-7 on means and 3.5e-6 on variances
# (measured over 4 seeds x all option settings x 12 factors), so the class is 1e-4 / 1e-3, two orders above
# the worst seen; sharpness comes from the dyadic class (observed exact, judged with close12).
TOL = {"c12": (1e-12, 1e-12), "c9": (1e-9, 1e-9), "cl": (1e-4, 1e-3)}
ATOL = 1e-300
TIE = 1e-9

REL_CONSTS = {"MaxHist": 3, "Cs": "<-CsSmall", "Vals": "{1, 2, 3}", "EmitDone": "TRUE"}


# ---------------------------------------------------------------------------------------
# TLC: module Relational
# ---------------------------------------------------------------------------------------

def units_model(ctx, large=False):
    """J1 + J2 for C06 / C07: recipes are exactly the change of unit, kernel arguments are
    dimensionless and keep their value for every c in Cs; returns {(kind, method): outexp}."""
    k = dict(REL_CONSTS)
    if large:
        k.update(Cs="<-CsLarge", Vals="{1, 2, 3, 5}")
    cfg = ctx.write_cfg("rel_units.cfg", init="InitUnits", next_="NextUnits", constants=k,
                        invariants=["RecipeComplete", "GroupsDimensionless", "GroupsKeepValue", "OutputExponents",
                                    "ConstrainScales", "MomentsScale"])
    r = ctx.tlc("Relational", cfg, workers=2, required_actions=("PickUnits", "EmitUnits"))
    out = {}
    for u in r.rec("units"):
        out[(u["kind"], u["method"])] = u
    if len(out) != 6:
        raise MachineryError(f"Relational/Units emitted {len(out)} (kind, method) records, expected 6")
    return out


def irr_model(ctx):
    """J1 + J2 for C08: all 2^11 subsets of the menu (and the controls); returns the list of
    {S, verdict{optkey}, same_inputs{optkey}}."""
    cfg = ctx.write_cfg("rel_irr.cfg", init="InitIrr", next_="NextIrr", constants=REL_CONSTS,
                        invariants=["IrrelevantKeepsInputs", "ControlsChangeInputs", "UnphasedIndividualsMatter",
                                    "VerIsBump"])
    r = ctx.tlc("Relational", cfg, workers=4, required_actions=("Perturb", "Judge"))
    recs = r.rec("irr")
    if len(recs) != 2 ** len(MENU) + len(CONTROLS):
        raise MachineryError(f"Relational/Irr emitted {len(recs)} subsets")
    return recs


def hist_model(ctx, maxhist):
    """J1 + J2 for C09 prior reuse: every call history of length <= maxhist."""
    k = dict(REL_CONSTS)
    k["MaxHist"] = maxhist
    cfg = ctx.write_cfg("rel_hist.cfg", init="InitHist", next_="NextHist", constants=k,
                        invariants=["SpaceFollowsLastCall", "HistChained", "ResultsAreFresh", "ConvCount"])
    r = ctx.tlc("Relational", cfg, workers=2, required_actions=("BuildPrior", "DateCall", "EndHist"))
    recs = r.rec("hist")
    want = sum(4 ** n for n in range(1, maxhist + 1))
    if len(recs) != want:
        raise MachineryError(f"Relational/Hist emitted {len(recs)} histories, expected {want}")
    return recs


def likpool_model(ctx, max_keys, workers=(0, 1, 2, 3), fill="key", emit=True, must_hold=True, name="likpool"):
    cfg = ctx.write_cfg(name + ".cfg", constants={
        "MaxKeys": max_keys, "WorkerSet": "{" + ",".join(map(str, workers)) + "}",
        "FillBy": json.dumps(fill), "EmitDone": "TRUE" if emit else "FALSE"},
        invariants=["FinalCache", "EachKeyOnce", "NeverWrongRow", "Feasible", "AtMostWRunning"])
    req = ("Choose", "StartAny", "FinishAny", "Done") + (("SeqStep",) if 0 in workers else ())
    return ctx.tlc("LikPool", cfg, workers=4, must_hold=must_hold, required_actions=req if must_hold else ())


# ---------------------------------------------------------------------------------------
# inputs
# ---------------------------------------------------------------------------------------

def corpus(seed, quick, families=("contemp", "poly", "hist", "intsamp", "dip")):
    out = []
    if "contemp" in families:
        out += inputs.contemporaneous(seed, k=3 if quick else 8)
    if "poly" in families:
        out += inputs.polytomies(seed, k=1 if quick else 3)
    if "hist" in families:
        out += inputs.historical(seed, k=1 if quick else 3)
    if "intsamp" in families:
        out += inputs.internal_samples(seed, k=1 if quick else 2)
    if "dip" in families:
        out += inputs.diploid(seed, k=1 if quick else 3)
    return out


def find_input(seed, name):
    for inp in corpus(seed, False):
        if inp.name == name:
            return inp
    raise MachineryError(f"cannot rebuild input {name} for seed {seed}")


def applicable(inp, method):
    """the discrete methods need contemporaneous samples (C35 owns the rejections)"""
    return method == "variational_gamma" or "historical" not in inp.tags


_T0 = [time.time()]


def lap(label):
    """section timing on stderr when VERIF_TIMING=1"""
    if os.environ.get("VERIF_TIMING") == "1":
        now = time.time()
        print(f"[timing] {label}: {now - _T0[0]:.1f}s", file=sys.stderr, flush=True)
        _T0[0] = now


def sub_rng(seed, *key):
    h = hashlib.sha256(json.dumps([seed, key], sort_keys=True, default=str).encode()).digest()
    return np.random.default_rng(int.from_bytes(h[:8], "little"))


# ---------------------------------------------------------------------------------------
# running the real code, projecting its outputs
# ---------------------------------------------------------------------------------------

def _md_column(table, field):
    out = np.full(table.num_rows, np.nan)
    if table.num_rows == 0 or len(table.metadata) == 0:
        return out
    sch = table.metadata_schema.schema
    if sch is None or sch.get("codec") != "json":
        for i, row in enumerate(table):
            md = row.metadata
            if isinstance(md, dict) and field in md and md[field] is not None:
                out[i] = md[field]
        return out
    off = table.metadata_offset
    raw = table.metadata.tobytes()
    for i in range(table.num_rows):
        b = raw[off[i]:off[i + 1]]
        if b:
            v = json.loads(b).get(field)
            if v is not None:
                out[i] = v
    return out


def canonical_mutation_order(ts):
    """Row order of mutations in a dated output is not a function of the mutations alone: tskit's
    compute_mutation_times() (called by date()) re-sorts the mutations of a site by their new times, so
    two mutations of one site on different nodes whose times agree to the last bit or two may swap rows
    when the time unit changes.  Mutation-level outputs are therefore compared in the canonical order
    (rank of site position, node, occurrence among the rows of that (site, node))."""
    if ts.num_mutations == 0:
        return np.zeros(0, dtype=np.int64)
    pos = ts.sites_position[ts.mutations_site]
    rank = np.searchsorted(np.unique(pos), pos)
    return np.lexsort((np.arange(ts.num_mutations), ts.mutations_node, rank))


def outputs(ts):
    t = ts.tables
    o = canonical_mutation_order(ts)
    return {"node_time": np.array(t.nodes.time), "mutation_time": np.array(t.mutations.time)[o],
            "node_mn": _md_column(t.nodes, "mn"), "node_vr": _md_column(t.nodes, "vr"),
            "mut_mn": _md_column(t.mutations, "mn")[o], "mut_vr": _md_column(t.mutations, "vr")[o],
            "mutation_node": np.array(t.mutations.node, dtype=float)[o]}


def id_components(ts):
    """byte strings whose identity C09 talks about (provenance is excluded on purpose)"""
    t = ts.tables
    return {"node_time": t.nodes.time.tobytes(), "mutation_time": t.mutations.time.tobytes(),
            "node_metadata": t.nodes.metadata.tobytes() + t.nodes.metadata_offset.tobytes(),
            "mutation_metadata": t.mutations.metadata.tobytes() + t.mutations.metadata_offset.tobytes(),
            "mutation_node": t.mutations.node.tobytes()}


def digest(b):
    return hashlib.sha1(b).hexdigest()


class Interner:
    """A3: equal byte strings <-> equal small integers"""

    def __init__(self):
        self.ids = {}

    def __call__(self, key):
        return self.ids.setdefault(key, len(self.ids) + 1)


class Run:
    def __init__(self):
        self.ok = False
        self.exc = None
        self.ts = None
        self.fit = None
        self.out = None
        self.tie = False
        self.wall = 0.0


class _NpProxy:
    """stands in for the name `np` inside tsdate.discrete while outside_maximization runs, to see
    how close every arg-max is to a tie (guard no_tie of Appendix C); everything else is numpy."""

    def __init__(self, logspace, sink):
        self._log = logspace
        self._sink = sink

    def __getattr__(self, name):
        return getattr(np, name)

    def argmax(self, a, *args, **kw):
        v = np.asarray(a, dtype=float).ravel()
        if v.size >= 2:
            if np.any(np.isnan(v)):
                self._sink.append(True)
            else:
                top = np.sort(v)[-2:]
                best, second = top[1], top[0]
                if self._log:
                    near = (not np.isfinite(best)) or (best - second <= TIE)
                else:
                    near = best <= 0 or second >= (1 - TIE) * best
                self._sink.append(bool(near))
        return np.argmax(a, *args, **kw)


def call(ts, method, **kw):
    """One real call of tsdate.date; never raises."""
    import tsdate
    from tsdate import discrete
    r = Run()
    sink = []
    orig = discrete.BeliefPropagation.outside_maximization

    def watched(self, *a, **k):
        discrete.np = _NpProxy(self.lik.probability_space == "logarithmic", sink)
        try:
            return orig(self, *a, **k)
        finally:
            discrete.np = np

    if method == "maximization":
        discrete.BeliefPropagation.outside_maximization = watched
    t0 = time.time()
    try:
        ret = tsdate.date(ts, method=method, **kw)
        if isinstance(ret, tuple):
            r.ts, r.fit = ret[0], ret[1]
        else:
            r.ts = ret
        r.out = outputs(r.ts)
        r.ok = True
    except Exception as ex:  # noqa: BLE001
        r.exc = ex
    finally:
        discrete.BeliefPropagation.outside_maximization = orig
        discrete.np = np
    r.wall = time.time() - t0
    r.tie = any(sink)
    return r


def close(a, b, rtol):
    a = np.asarray(a, dtype=float)
    b = np.asarray(b, dtype=float)
    if a.shape != b.shape:
        return False
    both_nan = np.isnan(a) & np.isnan(b)
    with np.errstate(invalid="ignore"):
        ok = np.abs(a - b) <= rtol * np.maximum(np.abs(a), np.abs(b)) + ATOL
    ok |= both_nan
    ok |= (a == b)  # equal infinities
    return bool(np.all(ok))


def maxrel(a, b):
    a = np.asarray(a, dtype=float)
    b = np.asarray(b, dtype=float)
    if a.shape != b.shape or a.size == 0:
        return float("nan") if a.shape != b.shape else 0.0
    with np.errstate(invalid="ignore", divide="ignore"):
        d = np.abs(a - b) / np.maximum(np.maximum(np.abs(a), np.abs(b)), ATOL)
    d[(a == b) | (np.isnan(a) & np.isnan(b))] = 0.0
    d[np.isnan(d)] = np.inf
    return float(np.max(d))


def predicates(base, other, factor=1.0, exps=None):
    """A4: the named predicates on every output, `other` against `base` scaled by factor^exps[q]"""
    p = {k: {} for k in TOL}
    worst = {}
    for q in OUTPUTS:
        e = (exps or {}).get(q, 0)
        want = base[q] * (factor ** e) if e else base[q]
        for k, (rt, rtv) in TOL.items():
            p[k][q] = close(want, other[q], rtv if q.endswith("_vr") else rt)
        worst[q] = maxrel(want, other[q])
    return p, worst


def blank_event(tid, kind, method, optkey=None):
    t = {q: True for q in OUTPUTS}
    z = {x: 0 for x in IDCOMPS}
    return {"tid": tid, "hid": tid, "kind": kind, "method": method, "optkey": optkey or method, "exact": False,
            "discard": False, "exps": {q: 0 for q in OUTPUTS}, "c12": dict(t), "c9": dict(t), "cl": dict(t),
            "S": [], "ida": dict(z), "idb": dict(z), "step": 0, "call_space": "linear", "space_before": "linear",
            "space_after": "linear", "data_close": True}


def pair_event(tid, kind, method, a, b, factor=1.0, exps=None, exact=False, optkey=None, S=()):
    ev = blank_event(tid, kind, method, optkey)
    p, worst = predicates(a.out, b.out, factor, exps)
    ev.update(c12=p["c12"], c9=p["c9"], cl=p["cl"], exact=bool(exact), discard=bool(a.tie or b.tie), S=list(S))
    if exps:
        full = {q: -99 for q in OUTPUTS}
        full.update(exps)
        ev["exps"] = full
    return ev, worst


def is_dyadic(c):
    m, _ = np.frexp(c)
    return m == 0.5


# ---------------------------------------------------------------------------------------
# TLC: RelationalTrace
# ---------------------------------------------------------------------------------------

def validate(ctx, events, kinds):
    """Run RelationalTrace over the events; return {tid: clause} of the rejected ones."""
    if not events:
        return {}
    tids = [e["tid"] for e in events]
    if len(set(tids)) != len(tids):
        raise MachineryError("duplicate trace ids")
    path = os.path.join(ctx.work, f"rtrace-{ctx.pid}-{len(events)}-{ctx.traces}.ndjson")
    with open(path, "w") as f:
        for e in events:
            f.write(json.dumps(e) + "\n")
    cfg = ctx.write_cfg("RelationalTrace.cfg", spec="TraceSpec",
                        constants={"Kinds": "{" + ",".join(json.dumps(k) for k in kinds) + "}"})
    r = ctx.tlc("RelationalTrace", cfg, workers=1, coverage=False, env={"TRACE_FILE": path}, must_hold=False)
    acc = r.rec("accepted")
    rej = {}
    for x in r.rec("reject"):
        rej.setdefault(x["tid"], x["clause"])
    if not acc:
        raise MachineryError("RelationalTrace did not report acceptance:\n" + r.stdout[-3000:])
    if acc[-1]["accepted"] + len(rej) != len(events) or acc[-1]["lines"] != len(events):
        raise MachineryError(f"RelationalTrace accounted for {acc[-1]['accepted']}+{len(rej)} of {len(events)} lines\n"
                             + r.stdout[-2000:])
    ctx.traces += len(events)
    return rej


def judge(ctx, pid, events, meta, kinds, label):
    rej = validate(ctx, events, kinds)
    by = {e["tid"]: e for e in events}
    for tid, clause in rej.items():
        m = meta.get(tid, {})
        cls = m.get("cls", "")
        ctx.violation(f"{pid}/{label}/{clause}" + (f"/{cls}" if cls else ""),
                      {"event": by[tid], "meta": m, "kinds": list(kinds)},
                      f"pair {tid} rejected by RelationalTrace at clause {clause}; worst relative differences "
                      f"{m.get('worst')}", subcheck=label)
    return rej


def error_violation(ctx, pid, label, tid, meta, a, b):
    """one side of a pair raised although the other returned (or both raised differently)"""
    ea = type(a.exc).__name__ if a.exc is not None else "ok"
    eb = type(b.exc).__name__ if b.exc is not None else "ok"
    ctx.violation(f"{pid}/{label}/outcome-differs/{ea}-vs-{eb}", {"meta": meta, "tid": tid},
                  f"pair {tid}: base call -> {ea} ({a.exc}), transformed call -> {eb} ({b.exc})", subcheck=label)


# ---------------------------------------------------------------------------------------
# transformations
# ---------------------------------------------------------------------------------------

def genome_scaled(ts, c):
    """every genomic coordinate multiplied by c"""
    t = ts.dump_tables()
    t.sequence_length = ts.sequence_length * c
    t.edges.left = t.edges.left * c
    t.edges.right = t.edges.right * c
    t.sites.position = t.sites.position * c
    if t.migrations.num_rows:
        t.migrations.left = t.migrations.left * c
        t.migrations.right = t.migrations.right * c
    t.build_index()
    return t.tree_sequence()


def _json_schema():
    return tskit.MetadataSchema({"codec": "json"})


def _rand_word(rng, alphabet="ACGT01-xyz", maxlen=4):
    return "".join(rng.choice(list(alphabet), size=int(rng.integers(0, maxlen + 1))))


def perturb(ts, items, rng):
    """apply the C08 menu items (and the controls) to a copy of ts"""
    items = set(items)
    t = ts.dump_tables()
    if "individuals" in items:
        k = int(rng.integers(0, max(2, ts.num_nodes // 2)))
        t.individuals.clear()
        for _ in range(k):
            t.individuals.add_row(flags=int(rng.integers(0, 4)))
        ind = rng.integers(-1, k, size=ts.num_nodes).astype(np.int32) if k else np.full(ts.num_nodes, -1, np.int32)
        t.nodes.individual = ind
    if "populations" in items:
        strict = t.populations.metadata_schema.schema is not None
        for j in range(int(rng.integers(1, 4))):
            t.populations.add_row(metadata={"name": f"extra{j}", "description": "added"} if strict else b"")
        t.nodes.population = rng.integers(-1, t.populations.num_rows, size=ts.num_nodes).astype(np.int32)
    if "monomorphic_sites" in items:
        pos = np.unique(np.concatenate([[0.0], ts.sites_position, [ts.sequence_length]]))
        mids = (pos[:-1] + pos[1:]) / 2
        mids = mids[(mids > pos[:-1]) & (mids < pos[1:])]
        # how many: a random few, or (every other time, when the input has multiply-hit sites) exactly
        # num_mutations - num_sites, which makes the two table sizes coincide (added after seed C08-a: a
        # shortcut keyed on num_mutations == num_sites)
        k_add = int(rng.integers(1, 12))
        resonant = ts.num_mutations - ts.num_sites
        if resonant > 0 and resonant <= len(mids) and rng.random() < 0.5:
            k_add = resonant
        take = rng.choice(mids, size=min(len(mids), k_add), replace=False)
        strict = t.sites.metadata_schema.schema is not None
        for x in take:
            t.sites.add_row(position=float(x), ancestral_state="N", metadata={} if strict else b"")
        t.sort()
    if "ancestral_states" in items:
        t.sites.packset_ancestral_state([_rand_word(rng) for _ in range(t.sites.num_rows)])
    if "derived_states" in items:
        t.mutations.packset_derived_state([_rand_word(rng) for _ in range(t.mutations.num_rows)])
    for item, table in (("node_metadata", t.nodes), ("mutation_metadata", t.mutations),
                        ("individual_metadata", t.individuals), ("population_metadata", t.populations)):
        if item in items:
            table.metadata_schema = _json_schema()
            rows = []
            for i in range(table.num_rows):
                d = {"tag": int(rng.integers(0, 1000)), "name": f"r{i}", "description": "perturbed"}
                if rng.random() < 0.7:  # adversarial: stale posterior fields a careless reader could pick up
                    d["mn"] = float(rng.random() * 1e4)
                    d["vr"] = float(rng.random() * 1e6)
                rows.append(json.dumps(d).encode())
            table.packset_metadata(rows)
    if "site_metadata" in items:
        t.sites.metadata_schema = tskit.MetadataSchema(None)
        t.sites.packset_metadata([bytes(rng.integers(0, 256, size=int(rng.integers(0, 6)), dtype=np.uint8))
                                  for _ in range(t.sites.num_rows)])
    if "provenance" in items:
        if rng.random() < 0.3:
            t.provenances.clear()
        for j in range(int(rng.integers(1, 4))):
            t.provenances.add_row(record=json.dumps({"software": {"name": "elsewhere", "version": str(j)},
                                                     "parameters": {"command": "noise", "x": float(rng.random())}}),
                                  timestamp=f"20{int(rng.integers(10, 30))}-01-0{j + 1}T00:00:00")
    if "move_mutation" in items:  # control: a *relevant* change
        cand = []
        for tree in ts.trees():
            for m in tree.mutations():
                p = tree.parent(m.node)
                if p != tskit.NULL and tree.parent(p) != tskit.NULL:
                    cand.append((m.id, p))
        if cand:
            pick = rng.choice(len(cand), size=max(1, len(cand) // 3), replace=False)
            node = t.mutations.node
            for j in pick:
                node[cand[j][0]] = cand[j][1]
            t.mutations.node = node
            t.mutations.time = np.full(t.mutations.num_rows, tskit.UNKNOWN_TIME)
            t.mutations.parent = np.full(t.mutations.num_rows, tskit.NULL, dtype=np.int32)
            t.sort()
            t.build_index()
            t.compute_mutation_parents()
    if "sample_time" in items:  # control: move one leaf sample up (only where that stays valid)
        time_ = t.nodes.time
        par_t = {}
        for e in ts.edges():
            par_t[e.child] = min(par_t.get(e.child, np.inf), ts.nodes_time[e.parent])
        leaves = [u for u in ts.samples() if u not in set(ts.edges_parent) and u in par_t]
        if leaves:
            u = leaves[int(rng.integers(0, len(leaves)))]
            time_[u] = time_[u] + 0.25 * (par_t[u] - time_[u])
            t.nodes.time = time_
            t.mutations.time = np.full(t.mutations.num_rows, tskit.UNKNOWN_TIME)
    t.build_index()
    return t.tree_sequence()


def projection_equal(a, b):
    """Inputs(ts) of C08 (phased case): edges, node times, sample flags, mutation (position, node)"""
    if a.num_nodes != b.num_nodes or a.num_edges != b.num_edges or a.num_mutations != b.num_mutations:
        return False
    ta, tb = a.tables, b.tables
    same = all(np.array_equal(getattr(ta.edges, c), getattr(tb.edges, c)) for c in ("left", "right", "parent", "child"))
    same &= np.array_equal(ta.nodes.time, tb.nodes.time)
    same &= np.array_equal(ta.nodes.flags & tskit.NODE_IS_SAMPLE, tb.nodes.flags & tskit.NODE_IS_SAMPLE)
    same &= np.array_equal(a.sites_position[a.mutations_site], b.sites_position[b.mutations_site])
    same &= np.array_equal(a.mutations_node, b.mutations_node)
    return bool(same and a.sequence_length == b.sequence_length)


# ---------------------------------------------------------------------------------------
# C06 / C07: unit changes, driven by the recipe TLC emitted
# ---------------------------------------------------------------------------------------

def variants(method, inp, quick, rng):
    """option settings ('configurations' of the quantifier).  Every quantity with a time dimension is
    explicit (the defaults eps = min_branch_length = 1e-8 are absolute numbers, not part of the input)."""
    if method == "variational_gamma":
        v = [{"min_branch_length": 1e-8},
             {"min_branch_length": 0.5, "rescaling_intervals": 0, "constr_iterations": 3},
             {"min_branch_length": 1e-8, "max_iterations": 3, "rescaling_intervals": 5}]
        if "diploid" in inp.tags or not quick:
            v.append({"min_branch_length": 1e-8, "singletons_phased": False})
        if not quick:
            v += [{"min_branch_length": 1e-3, "match_segregating_sites": True},
                  {"min_branch_length": 1e-8, "regularise_roots": False, "rescaling_iterations": 2},
                  {"min_branch_length": 2.0, "max_shape": 50.0, "constr_iterations": 0}]
    else:
        Ne = inp.Ne
        tp = np.concatenate([[0.0], np.geomspace(0.02 * Ne, 12.0 * Ne, 9)])
        demog = {"population_size": [float(Ne), 3.0 * Ne, 0.5 * Ne], "time_breaks": [0.3 * Ne, 2.0 * Ne]}
        v = [{"min_branch_length": 1e-8, "eps": 1e-8, "population_size": Ne},
             {"min_branch_length": 1e-8, "eps": 1e-6, "population_size": Ne, "timepoints": tp,
              "probability_space": "linear"},
             {"min_branch_length": 0.1, "eps": 1e-8, "population_size": demog, "timepoints": 8}]
        if not quick:
            v += [{"min_branch_length": 1e-8, "eps": 1e-8, "population_size": demog, "timepoints": tp},
                  {"min_branch_length": 1e-8, "eps": 1e-8, "population_size": Ne, "probability_space": "linear"}]
            if method == "inside_outside":
                v += [{"min_branch_length": 1e-8, "eps": 1e-8, "population_size": Ne, "outside_standardize": False,
                       "probability_space": "logarithmic"},
                      {"min_branch_length": 1e-8, "eps": 1e-8, "population_size": Ne, "ignore_oldest_root": True}]
    if quick:
        pick = rng.choice(np.arange(1, len(v)), size=min(2, len(v) - 1), replace=False)
        return [v[0]] + [v[int(i)] for i in sorted(pick)]
    return v


def _jsonable(kw):
    out = {}
    for k, x in kw.items():
        out[k] = x.tolist() if isinstance(x, np.ndarray) else x
    return out


def _from_json(kw):
    out = dict(kw)
    if isinstance(out.get("timepoints"), list):
        out["timepoints"] = np.array(out["timepoints"], dtype=float)
    return out


def apply_recipe(ts, mu, kw, recipe, c):
    """the transformed (ts, mutation_rate, options): every quantity q multiplied by c ** recipe[q]"""
    f = lambda q: float(c) ** int(recipe.get(q, 0))  # noqa: E731
    if not (recipe["edge_coords"] == recipe["site_position"] == recipe["sequence_length"]):
        raise MachineryError("recipe scales genomic coordinates inconsistently")
    ts2 = ts
    if recipe["edge_coords"]:
        ts2 = genome_scaled(ts2, f("edge_coords"))
    if recipe["sample_time"]:
        t = ts2.dump_tables()
        t.nodes.time = t.nodes.time * f("sample_time")
        mt = t.mutations.time
        t.mutations.time = np.where(tskit.is_unknown_time(mt), mt, mt * f("sample_time"))
        ts2 = t.tree_sequence()
    kw2 = dict(kw)
    for q in ("min_branch_length", "eps"):
        if q in kw2:
            kw2[q] = kw2[q] * f(q)
    if "population_size" in kw2:
        ps = kw2["population_size"]
        if isinstance(ps, dict):
            kw2["population_size"] = {"population_size": [x * f("population_size") for x in ps["population_size"]],
                                      "time_breaks": [x * f("time_breaks") for x in ps["time_breaks"]]}
        else:
            kw2["population_size"] = ps * f("population_size")
    if isinstance(kw2.get("timepoints"), np.ndarray):
        kw2["timepoints"] = kw2["timepoints"] * f("timepoints")
    return ts2, mu * f("mutation_rate"), kw2


def date_with(ts, method, mu, kw):
    """tsdate.date with our option record; explicit grids go through tsdate.build_prior_grid"""
    import tsdate
    kw = dict(kw)
    tp = kw.pop("timepoints", None)
    if tp is not None:
        try:
            ps = kw.pop("population_size")
            if isinstance(ps, dict):  # build_prior_grid does not convert parameter dicts itself
                ps = tsdate.demography.PopulationSizeHistory(**ps)
            pr = tsdate.build_prior_grid(ts, population_size=ps, timepoints=tp)
        except Exception as ex:  # noqa: BLE001
            r = Run()
            r.exc = ex
            return r
        kw["priors"] = pr
    return call(ts, method, mutation_rate=mu, **kw)


def scaling_pair(ctx, pid, kind, units, inp, method, kw, c, base=None, tid=None):
    u = units[(kind, method)]
    a = base if base is not None else date_with(inp.ts, method, inp.mu, kw)
    ts2, mu2, kw2 = apply_recipe(inp.ts, inp.mu, kw, u["recipe"], c)
    b = date_with(ts2, method, mu2, kw2)
    ctx.evaluations += 1
    tid = tid or f"{inp.name}/{method}/{json.dumps(_jsonable(kw), sort_keys=True)}/c={c!r}"
    meta = {"input": inp.name, "method": method, "kw": _jsonable(kw), "c": c, "kind": kind, "cls": method}
    if not (a.ok and b.ok):
        if a.ok != b.ok:
            error_violation(ctx, pid, kind, tid, meta, a, b)
        else:
            ctx.count("pairs_both_rejected")
        return a, None, meta
    ev, worst = pair_event(tid, kind, method, a, b, factor=c, exps=u["outexp"], exact=is_dyadic(c))
    meta["worst"] = {q: worst[q] for q in u["outexp"]}
    if ev["discard"]:
        ctx.count("pairs_discarded_near_argmax_tie")
    else:
        free = ~np.isin(np.arange(inp.ts.num_nodes), inp.ts.samples())
        if np.any(a.out["node_time"][free] > 0):
            ctx.nontriv(tid)
    return a, ev, meta


def scaling_run(ctx, pid, kind, exact_factors, other_factors):
    units = units_model(ctx, large=not ctx.quick)
    events, metas = [], {}
    worst_seen = {}
    for inp in corpus(ctx.seed, ctx.quick):
        for method in METHODS:
            if not applicable(inp, method):
                continue
            for kw in variants(method, inp, ctx.quick, sub_rng(ctx.seed, inp.name, method)):
                base = None
                for c in list(exact_factors) + list(other_factors):
                    base, ev, meta = scaling_pair(ctx, pid, kind, units, inp, method, kw, c, base=base)
                    if ev is None:
                        continue
                    events.append(ev)
                    metas[ev["tid"]] = meta
                    cls = (method, "dyadic" if ev["exact"] else "other")
                    w = max(v for v in meta["worst"].values())
                    if not ev["discard"]:
                        worst_seen[cls] = max(worst_seen.get(cls, 0.0), w)
                    ctx.sample({"kind": kind, "input": inp.name, "method": method, "kw": _jsonable(kw), "c": c,
                                "worst_relative_difference": meta["worst"]}, limit=6)
    ctx.extra["worst_relative_difference_by_class"] = {f"{m}/{k}": v for (m, k), v in sorted(worst_seen.items())}
    ctx.extra["predicates"] = {"close12": "rel 1e-12 (dyadic c)", "closeL": f"rel {TOL['cl'][0]:g}, variances {TOL['cl'][1]:g} (other c)",
                               "no_tie": f"every arg-max of outside_maximization separated by > {TIE}"}
    judge(ctx, pid, events, metas, [kind], kind)
    ctx.count("pairs_judged", len(events))


def scaling_replay(ctx, pid, kind, body):
    inst = body["instance"]
    meta = inst["meta"]
    units = units_model(ctx)
    inp = find_input(body.get("seed", ctx.seed), meta["input"])
    _, ev, m = scaling_pair(ctx, pid, kind, units, inp, meta["method"], _from_json(meta["kw"]), meta["c"],
                            tid=inst.get("tid") or (inst.get("event") or {}).get("tid"))
    if ev is not None:
        judge(ctx, pid, [ev], {ev["tid"]: m}, [kind], kind)


# ---------------------------------------------------------------------------------------
# fresh processes (C09)
# ---------------------------------------------------------------------------------------

def run_jobs(jobs):
    """jobs: [{"path": trees file, "method":, "kw": {...}}] -> [{"ok":, "exc":, "ids": {comp: sha1}}]"""
    res = []
    cache = {}
    for j in jobs:
        ts = cache.get(j["path"])
        if ts is None:
            ts = cache[j["path"]] = tskit.load(j["path"])
        r = call(ts, j["method"], **j["kw"])
        if r.ok:
            res.append({"ok": True, "exc": None, "ids": {k: digest(v) for k, v in id_components(r.ts).items()}})
        else:
            res.append({"ok": False, "exc": f"{type(r.exc).__name__}: {r.exc}", "ids": {}})
    return res


def spawn_children_start(ctx, jobs, hashseeds):
    """the same jobs in fresh interpreters with different PYTHONHASHSEED, concurrently"""
    jobfile = os.path.join(ctx.work, "jobs.json")
    with open(jobfile, "w") as f:
        json.dump(jobs, f)
    procs = []
    for hs in hashseeds:
        env = dict(os.environ)
        env["PYTHONHASHSEED"] = str(hs)
        env["PYTHONPATH"] = harness.VERIF + os.pathsep + env.get("PYTHONPATH", "")
        env["VERIF_REPO"] = harness.REPO
        out = os.path.join(ctx.work, f"child-{hs}.json")
        log = open(os.path.join(ctx.work, f"child-{hs}.log"), "w")
        p = subprocess.Popen([sys.executable, "-m", "vt.meta_common", "child", jobfile, out, ctx.work],
                             env=env, cwd=harness.VERIF, stdout=log, stderr=subprocess.STDOUT, text=True)
        procs.append((hs, p, out, log))
    return procs


def spawn_children_collect(procs, timeout=5400):
    results = {}
    for hs, p, out, log in procs:
        try:
            p.wait(timeout=timeout)
        except subprocess.TimeoutExpired as ex:
            p.kill()
            raise MachineryError(f"child with PYTHONHASHSEED={hs} timed out") from ex
        finally:
            log.close()
        if p.returncode != 0 or not os.path.exists(out):
            with open(log.name) as f:
                tail = f.read()[-3000:]
            raise MachineryError(f"child with PYTHONHASHSEED={hs} failed (rc={p.returncode}):\n{tail}")
        with open(out) as f:
            results[hs] = json.load(f)
    return results


def _child_main(argv):
    jobfile, out, work = argv
    harness.setup_repo_env(os.path.join(work, f"child-{os.getpid()}"))
    import tsdate
    if not os.path.realpath(tsdate.__file__).startswith(os.path.realpath(harness.REPO)):
        raise SystemExit(f"child imported tsdate from {tsdate.__file__}, not from {harness.REPO}")
    with open(jobfile) as f:
        jobs = json.load(f)
    # a different call order in every child: a result must not depend on what the process did before
    hs = int(os.environ.get("PYTHONHASHSEED", "0") or 0)
    order = list(range(len(jobs)))
    rot = hs % max(1, len(jobs))
    order = order[rot:] + order[:rot]
    if hs % 2 == 0:
        order.reverse()
    got = run_jobs([jobs[i] for i in order])
    results = [None] * len(jobs)
    for i, r in zip(order, got):
        results[i] = r
    res = {"hashseed": os.environ.get("PYTHONHASHSEED"), "hash_of_a": hash("a"), "results": results, "order": order}
    with open(out + ".tmp", "w") as f:
        json.dump(res, f)
    os.replace(out + ".tmp", out)


# ---------------------------------------------------------------------------------------
# the likelihood pool (C09)
# ---------------------------------------------------------------------------------------

DELAYS = {}  # (muts, span) -> seconds; read by the patched _lik inside forked pool workers
_PARENT = os.getpid()


def _key(k):
    return (int(k[0]), float(k[1]))


class delayed_lik:
    """context manager: inside pool workers Likelihoods._lik / LogLikelihoods._lik sleep DELAYS[key]
    first (a scheduler perturbation: the values are untouched).  Workers are forked, so they inherit
    the patch and the table."""

    def __enter__(self):
        from tsdate import discrete
        self.saved = (discrete.Likelihoods.__dict__["_lik"], discrete.LogLikelihoods.__dict__["_lik"])

        def wrap(orig):
            f = orig.__func__

            def _lik(muts, span, dt, mutation_rate, standardize=True):
                if os.getpid() != _PARENT:
                    d = DELAYS.get((int(muts), float(span)), 0.0)
                    if d:
                        time.sleep(d)
                return f(muts, span, dt, mutation_rate, standardize=standardize)
            return staticmethod(_lik)

        discrete.Likelihoods._lik = wrap(self.saved[0])
        discrete.LogLikelihoods._lik = wrap(self.saved[1])
        return self

    def __exit__(self, *a):
        from tsdate import discrete
        discrete.Likelihoods._lik = self.saved[0]
        discrete.LogLikelihoods._lik = self.saved[1]
        DELAYS.clear()


def pool_call(ts, method, num_threads, delays=None, **kw):
    """a discrete method with return_fit=True; returns (Run, keys in insertion order, arrivals, cache dict)"""
    from tsdate import discrete
    arrivals = []
    discrete._verif_arrivals = arrivals if (num_threads or 0) >= 2 else None
    try:
        if delays:
            with delayed_lik():
                DELAYS.update(delays)
                r = call(ts, method, num_threads=num_threads, return_fit=True, **kw)
        else:
            r = call(ts, method, num_threads=num_threads, return_fit=True, **kw)
    finally:
        discrete._verif_arrivals = None
    if not r.ok:
        return r, [], [], {}
    cache = r.fit.lik.unfixed_likelihood_cache
    keys = [_key(k) for k in cache.keys()]
    return r, keys, [_key(k) for k in arrivals], {_key(k): v for k, v in cache.items()}


def pool_event(tid, W, keys, arrivals, cache, expect, intern):
    idx = {k: i + 1 for i, k in enumerate(keys)}
    row = lambda d, k: 0 if d.get(k) is None else intern(np.asarray(d[k]).tobytes())  # noqa: E731
    return {"tid": tid, "K": len(keys), "W": int(W), "arrivals": [idx.get(k, len(keys) + 1) for k in arrivals],
            "cache": [row(cache, k) for k in keys], "expect": [row(expect, k) for k in keys]}


def validate_pool(ctx, events):
    if not events:
        return {}
    path = os.path.join(ctx.work, f"ptrace-{len(events)}-{ctx.traces}.ndjson")
    with open(path, "w") as f:
        for e in events:
            f.write(json.dumps(e) + "\n")
    cfg = ctx.write_cfg("LikPoolTrace.cfg", spec="TraceSpec")
    r = ctx.tlc("LikPoolTrace", cfg, workers=1, coverage=False, env={"TRACE_FILE": path}, must_hold=False)
    acc = r.rec("accepted")
    rej = {}
    for x in r.rec("reject"):
        rej.setdefault(x["tid"], x["clause"])
    if not acc or acc[-1]["accepted"] + len(rej) != len(events):
        raise MachineryError("LikPoolTrace did not account for every trace:\n" + r.stdout[-3000:])
    ctx.traces += len(events)
    return rej


def tiny_inputs_with_keys(seed, wanted):
    """tiny inputs whose likelihood cache has exactly K keys: a comb tree on K + 2 contemporaneous samples has
    K edges above non-sample nodes, all of the same span; the j-th of them carries j - 1 mutations, so the
    keys (mutation count, span) are pairwise distinct.  Leaf edges carry a seeded number of mutations."""
    rng = np.random.default_rng(seed + 4242)
    found = {}
    for K in sorted(wanted):
        n = K + 2
        L = float(rng.choice([50, 100, 400]))
        t = tskit.TableCollection(sequence_length=L)
        for _ in range(n):
            t.nodes.add_row(flags=tskit.NODE_IS_SAMPLE, time=0.0)
        for i in range(n - 1):
            t.nodes.add_row(flags=0, time=float(i + 1) * 10.0)
        t.edges.add_row(0, L, n, 0)
        t.edges.add_row(0, L, n, 1)
        for i in range(1, n - 1):
            t.edges.add_row(0, L, n + i, n + i - 1)
            t.edges.add_row(0, L, n + i, i + 1)
        on_node = [(n + i - 1, i - 1) for i in range(1, n - 1)]            # internal edges: 0 .. K-1 mutations
        on_node += [(u, int(rng.integers(0, 3))) for u in range(n)]        # leaf edges
        pos = 0
        for u, k in on_node:
            for _ in range(k):
                site = t.sites.add_row(position=float(pos), ancestral_state="0")
                t.mutations.add_row(site=site, node=u, derived_state="1")
                pos += 1
        if t.mutations.num_rows == 0:
            site = t.sites.add_row(position=float(pos), ancestral_state="0")
            t.mutations.add_row(site=site, node=0, derived_state="1")
        t.sort()
        t.build_index()
        t.compute_mutation_parents()
        found[K] = inputs.Inp(f"comb{seed}_K{K}", t.tree_sequence(), 1e-3, 20, {"contemp"})
    return found


if __name__ == "__main__":
    if len(sys.argv) >= 2 and sys.argv[1] == "child":
        _child_main(sys.argv[2:])
